#[cfg(any(kani, vf_replay))]
#[allow(dead_code)]
mod vf_kani_c03_options {
    use super::*;
    use crate::request::{Request, RequestType};
    use crate::vf_src::*;

    const TYPES: [RequestType; 17] = [
        RequestType::Beacon, RequestType::Csp, RequestType::Document, RequestType::Dtd, RequestType::Fetch,
        RequestType::Font, RequestType::Image, RequestType::Media, RequestType::Object, RequestType::Other,
        RequestType::Ping, RequestType::Script, RequestType::Stylesheet, RequestType::Subdocument,
        RequestType::Websocket, RequestType::Xlst, RequestType::Xmlhttprequest,
    ];

    // type option bit a request type is tested against, written from the option names
    // (bit positions are the documented flag layout of NetworkFilterMask)
    fn ref_type_bit(t: &RequestType) -> u32 {
        match t {
            RequestType::Image => 1 << 0,
            RequestType::Media => 1 << 1,
            RequestType::Object => 1 << 2,
            RequestType::Other | RequestType::Dtd | RequestType::Fetch | RequestType::Xlst => 1 << 3,
            RequestType::Ping | RequestType::Beacon => 1 << 4,
            RequestType::Script => 1 << 5,
            RequestType::Stylesheet => 1 << 6,
            RequestType::Subdocument => 1 << 7,
            RequestType::Websocket => 1 << 8,
            RequestType::Xmlhttprequest => 1 << 9,
            RequestType::Font => 1 << 10,
            RequestType::Document => 1 << 29,
            RequestType::Csp => 1 << 25,
        }
    }

    fn mk_request(t: RequestType, is_http: bool, is_https: bool, third: bool, src: Option<Vec<Hash>>) -> Request {
        Request {
            request_type: t,
            is_http,
            is_https,
            is_supported: true,
            is_third_party: third,
            url: String::new(),
            hostname: String::new(),
            source_hostname_hashes: src,
            url_lower_cased: String::new(),
            request_tokens: Vec::new(),
            original_url: String::new(),
        }
    }

    /// reference for everything but the domain lists, from the statement of C03
    fn ref_options_nodomain(bits: u32, t: &RequestType, is_http: bool, is_https: bool, third: bool) -> bool {
        let has = |b: u32| bits & b == b;
        let badfilter = has(1 << 27);
        let type_ok = match t {
            RequestType::Document => has(1 << 29) || has(1 << 22), // document bit, or the rule is an exception
            other => has(ref_type_bit(other)),
        };
        let scheme_ok = (!is_https || has(1 << 12)) && (!is_http || has(1 << 11));
        let party_ok = if third { has(1 << 16) } else { has(1 << 17) };
        !badfilter && type_ok && scheme_ok && party_ok
    }

    // C03.options.nodomain [C]: symbolic 32-bit mask x 17 types x http/https/party; loop-free
    pub fn c03_options_nodomain_body<G: Src>(g: &mut G) {
        let bits = g.u32();
        let ti = g.usize_below(17);
        let is_http = g.bool();
        let is_https = g.bool();
        g.assume(!(is_http && is_https));
        let third = g.bool();
        let mask = NetworkFilterMask::from_bits_retain(bits);
        let req = mk_request(TYPES[ti].clone(), is_http, is_https, third, None);
        let got = check_options(mask, None, None, None, None, &req);
        let want = ref_options_nodomain(bits, &TYPES[ti], is_http, is_https, third);
        assert!(got == want, "C03.options.nodomain: mask {bits:#x} type #{ti} http={is_http} https={is_https} third={third}: got {got}, reference {want}");
        #[cfg(kani)]
        {
            kani::cover!(got);
            kani::cover!(!got);
        }
    }
    #[cfg(kani)]
    #[kani::proof]
    fn c03_options_nodomain() {
        c03_options_nodomain_body(&mut Sym)
    }

    // C03.options.domains [B]: <=2 source hashes, <=2 included, <=2 excluded (sorted, as the parser
    // builds them), unions as the parser computes them or absent.
    pub fn c03_options_domains_body<G: Src>(g: &mut G) {
        let bits = g.u32();
        let third = g.bool();
        let ns = g.usize_below(3);
        let ni = g.usize_below(3);
        let ne = g.usize_below(3);
        // a small universe makes collisions between the lists likely
        let sa = [(g.u8() & 7) as Hash, (g.u8() & 7) as Hash];
        let ia = [(g.u8() & 7) as Hash, (g.u8() & 7) as Hash];
        let ea = [(g.u8() & 7) as Hash, (g.u8() & 7) as Hash];
        // lists are sorted, as the parser builds them
        g.assume(ni < 2 || ia[0] <= ia[1]);
        g.assume(ne < 2 || ea[0] <= ea[1]);
        let has_src = g.bool();
        let use_union = g.bool();
        let inc = &ia[..ni];
        let exc = &ea[..ne];
        let inc_union = if ni == 2 { ia[0] | ia[1] } else { ia[0] };
        let exc_union = if ne == 2 { ea[0] | ea[1] } else { ea[0] };
        let mut src: Vec<Hash> = Vec::with_capacity(2);
        if ns > 0 { src.push(sa[0]); }
        if ns > 1 { src.push(sa[1]); }
        let mask = NetworkFilterMask::from_bits_retain(bits);
        let req = mk_request(RequestType::Image, false, true, third, if has_src { Some(src) } else { None });
        let got = check_options(
            mask,
            if ni > 0 { Some(inc) } else { None },
            if ni > 0 && use_union { Some(inc_union) } else { None },
            if ne > 0 { Some(exc) } else { None },
            if ne > 0 && use_union { Some(exc_union) } else { None },
            &req,
        );
        // reference (from the statement: a rule applies only if every option on it is satisfied): the base options hold, some
        // initiator (sub)domain hash is listed if a positive list exists - an unknown initiator is in no listed domain - and
        // none is excluded (an unknown initiator is in no excluded domain either).
        let base = ref_options_nodomain(bits, &RequestType::Image, false, true, third);
        let mut inc_ok = true;
        let mut exc_ok = true;
        if has_src {
            let listed = |l: &[Hash], n: usize, x: Hash| (n > 0 && l[0] == x) || (n > 1 && l[1] == x);
            if ni > 0 {
                inc_ok = (ns > 0 && listed(&ia, ni, sa[0])) || (ns > 1 && listed(&ia, ni, sa[1]));
            }
            exc_ok = !((ns > 0 && listed(&ea, ne, sa[0])) || (ns > 1 && listed(&ea, ne, sa[1])));
        } else if ni > 0 {
            inc_ok = false;
        }
        let want = base && inc_ok && exc_ok;
        assert!(got == want, "C03.options.domains: src={:?} known={has_src} include={inc:?} exclude={exc:?} union={use_union}: got {got}, reference {want}", &sa[..ns]);
    }
    #[cfg(kani)]
    #[kani::proof]
    #[kani::unwind(4)]
    fn c03_options_domains() {
        c03_options_domains_body(&mut Sym)
    }

    // C03.type_bit [C]: the request-type -> option-bit association, all 17 variants
    pub fn c03_type_bit_body<G: Src>(g: &mut G) {
        let ti = g.usize_below(17);
        let m = NetworkFilterMask::from(&TYPES[ti]);
        assert!(m.bits() == ref_type_bit(&TYPES[ti]));
    }
    #[cfg(kani)]
    #[kani::proof]
    fn c03_type_bit() {
        c03_type_bit_body(&mut Sym)
    }
}
