// Appended to src/lib.rs of the scratch copy.  Source of harness inputs: symbolic under Kani, a
// recorded byte list under `--cfg vf_replay` (so that every Kani counterexample can be re-run as a
// plain `cargo test` against the real code).
#[cfg(any(kani, vf_replay))]
#[allow(dead_code)]
pub(crate) mod vf_src {
    pub trait Src {
        fn u8(&mut self) -> u8;
        fn u16(&mut self) -> u16;
        fn u32(&mut self) -> u32;
        fn u64(&mut self) -> u64;
        fn bool(&mut self) -> bool;
        fn assume(&mut self, c: bool);
        fn usize_below(&mut self, n: usize) -> usize {
            let v = self.u8() as usize;
            self.assume(v < n);
            v
        }
    }

    #[cfg(kani)]
    pub struct Sym;
    #[cfg(kani)]
    impl Src for Sym {
        fn u8(&mut self) -> u8 { kani::any() }
        fn u16(&mut self) -> u16 { kani::any() }
        fn u32(&mut self) -> u32 { kani::any() }
        fn u64(&mut self) -> u64 { kani::any() }
        fn bool(&mut self) -> bool { kani::any() }
        fn assume(&mut self, c: bool) { kani::assume(c) }
    }

    /// Thrown (as a panic payload) when a recorded input does not satisfy an assumption.
    pub struct Rec { pub vals: Vec<Vec<u8>>, pub pos: usize, pub vacuous: bool }
    impl Rec {
        pub fn new(vals: Vec<Vec<u8>>) -> Self { Rec { vals, pos: 0, vacuous: false } }
        fn next(&mut self, n: usize) -> u64 {
            let v = self.vals.get(self.pos).cloned().unwrap_or_default();
            self.pos += 1;
            let mut r: u64 = 0;
            for i in 0..n { r |= (*v.get(i).unwrap_or(&0) as u64) << (8 * i); }
            r
        }
    }
    impl Src for Rec {
        fn u8(&mut self) -> u8 { self.next(1) as u8 }
        fn u16(&mut self) -> u16 { self.next(2) as u16 }
        fn u32(&mut self) -> u32 { self.next(4) as u32 }
        fn u64(&mut self) -> u64 { self.next(8) }
        fn bool(&mut self) -> bool { self.next(1) & 1 == 1 }
        fn assume(&mut self, c: bool) { if !c { self.vacuous = true; std::panic::panic_any("VF-REPLAY-VACUOUS"); } }
    }
}
