#[cfg(any(kani, vf_replay))]
#[allow(dead_code)]
mod vf_kani_c18_perm {
    use super::*;
    use crate::vf_src::*;

    // C18.perm.subset [C]: every (resource permission, list permission) pair; loop bound is the
    // constant bit width 8 (unwinding assertion on).
    pub fn c18_perm_subset_body<G: Src>(g: &mut G) {
        let r: u8 = g.u8();
        let f: u8 = g.u8();
        let got = PermissionMask::from_bits(r).is_injectable_by(PermissionMask::from_bits(f));
        // reference written from the statement: every bit the resource requires was granted
        let mut want = true;
        let mut i = 0;
        while i < 8 {
            if (r >> i) & 1 == 1 && (f >> i) & 1 == 0 {
                want = false;
            }
            i += 1;
        }
        assert!(got == want, "C18.perm.subset: is_injectable_by({r:#x} requires, {f:#x} granted) = {got}, expected {want}");
        #[cfg(kani)]
        {
            kani::cover!(got);
            kani::cover!(!got);
        }
    }
    #[cfg(kani)]
    #[kani::proof]
    #[kani::unwind(10)]
    fn c18_perm_subset() {
        c18_perm_subset_body(&mut Sym)
    }

    // C18.perm.default [C]: "requires no permission" == all bits clear
    pub fn c18_perm_default_body<G: Src>(g: &mut G) {
        let r: u8 = g.u8();
        assert!(PermissionMask::from_bits(r).is_default() == (r == 0));
        // default() grants nothing
        assert!(PermissionMask::default().is_default());
        // union really is the bitwise union
        let f: u8 = g.u8();
        let u = PermissionMask::from_bits(r) | PermissionMask::from_bits(f);
        assert!(u.0 == (r | f));
        let mut m = PermissionMask::from_bits(r);
        m |= PermissionMask::from_bits(f);
        assert!(m.0 == (r | f));
    }
    #[cfg(kani)]
    #[kani::proof]
    fn c18_perm_default() {
        c18_perm_default_body(&mut Sym)
    }
}
