#[cfg(any(kani, vf_replay))]
#[allow(dead_code)]
mod vf_kani_c10_header {
    use super::*;
    use crate::vf_src::*;

    // C10.hdr.twin [B]: every byte string of length <= 12 (covers the 4-byte magic + version byte and
    // the 10-byte gzip header), except those that reach the msgpack decoder (magic + version 0).
    pub fn c10_header_twin_body<G: Src>(g: &mut G) {
        let n = g.usize_below(13);
        let mut a = [0u8; 12];
        let mut i = 0;
        while i < 12 { a[i] = g.u8(); i += 1; }
        let s = &a[..n];
        let magic = n >= 4 && s[0] == 0xd1 && s[1] == 0xd9 && s[2] == 0x3a && s[3] == 0xaf;
        g.assume(!(magic && n >= 5 && s[4] == 0)); // the v0 decode path is rmp-serde (trusted)
        let gz = n >= 10 && s[0] == 31 && s[1] == 139 && s[2] == 8 && s[3] == 0 && s[4] == 0 && s[5] == 0 && s[6] == 0 && s[7] == 0 && s[8] == 0 && s[9] == 255;
        let r = DeserializeFormat::deserialize(s); // must not panic for any input
        match r {
            Ok(_) => assert!(false, "C10.hdr: no decode path was allowed, yet Ok"),
            Err(DeserializationError::UnsupportedFormatVersion(v)) => assert!(magic && n >= 5 && v == s[4], "C10.hdr: UnsupportedFormatVersion for a non-versioned buffer"),
            Err(DeserializationError::LegacyFormatNoLongerSupported) => assert!(!magic && gz, "C10.hdr: Legacy for a non-gzip buffer"),
            Err(DeserializationError::NoHeaderFound) => assert!((!magic && !gz) || (magic && n == 4), "C10.hdr: NoHeaderFound for a buffer with a header"),
            Err(DeserializationError::RmpSerdeError(_)) => assert!(false, "C10.hdr: decoder reached"),
        }
    }
    // T: the msgpack decoder (rmp-serde) is stubbed out; the harness never reaches it
    fn vf_stub_v0(_s: &[u8]) -> Result<v0::DeserializeFormat, DeserializationError> {
        Err(DeserializationError::NoHeaderFound)
    }
    #[cfg(kani)]
    #[kani::proof]
    #[kani::stub(v0::DeserializeFormat::deserialize, vf_stub_v0)]
    #[kani::unwind(14)]
    fn c10_header_twin() {
        c10_header_twin_body(&mut Sym)
    }
}
