#[cfg(any(kani, vf_replay))]
#[allow(dead_code)]
mod vf_kani_c10_wf {
    use super::*;
    use crate::filters::network::FilterPart;
    use crate::regex_manager::RegexManager;
    use crate::request::{Request, RequestType};
    use crate::vf_src::*;

    fn mk_request() -> Request {
        Request {
            request_type: RequestType::Image, is_http: false, is_https: true, is_supported: true, is_third_party: true,
            url: String::from("s://a/b"), hostname: String::from("a"), source_hostname_hashes: None,
            url_lower_cased: String::from("s://a/b"), request_tokens: Vec::new(), original_url: String::from("s://a/b"),
        }
    }

    // C10.wf.no_hostname [C over the flag combinations]: "when it returns success the resulting engine answers
    // queries without panicking" — a decoded rule may carry the hostname-anchor flag without a hostname;
    // every non-regex hostname matcher must then answer (no match) instead of aborting.
    pub fn c10_wf_no_hostname_body<G: Src>(g: &mut G) {
        let bits = g.u32();
        let mask = NetworkFilterMask::from_bits_retain(bits);
        let req = mk_request();
        let part = if g.bool() { FilterPart::Empty } else { FilterPart::Simple(String::from("b")) };
        assert!(!check_pattern_hostname_left_right_anchor_filter(mask, part.iter(), None, &req));
        assert!(!check_pattern_hostname_right_anchor_filter(mask, part.iter(), None, &req));
        assert!(!check_pattern_hostname_left_anchor_filter(mask, part.iter(), None, &req));
        assert!(!check_pattern_hostname_anchor_filter(mask, part.iter(), None, &req));
    }
    #[cfg(kani)]
    #[kani::proof]
    #[kani::unwind(10)]
    fn c10_wf_no_hostname() { c10_wf_no_hostname_body(&mut Sym) }
}
