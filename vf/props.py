"""Per-property configuration: which Verus units and Kani harness sets decide it."""
from kani_run import Harness, KaniSet

PROPS = {}

PROPS["C10"] = dict(
    level="proof",
    verus=["c10_header"],
    kani=[],
    trusted=["rmp-serde msgpack decoding (v0::DeserializeFormat::deserialize body)"],
    assumptions=[],
    explanation="",
    level_text="Verus proves, for byte slices of any length, that the header/version dispatch never indexes out of bounds and maps each header class to the documented error",
    level_note="msgpack decoding (rmp-serde) is trusted; see evidence trusted_base",
)

PROPS["C18"] = dict(
    level="proof",
    verus=[],
    kani=[KaniSet("src/resources/mod.rs", "c18_perm.rs", [
        Harness("c18_perm_subset", "C18.perm.subset", "C", "all 256x256 pairs; loop over the 8 bit positions fully unwound"),
        Harness("c18_perm_default", "C18.perm.default", "C", "all u8 x u8, loop-free"),
    ])],
    trusted=[],
    assumptions=[],
    explanation="",
    level_text="Kani/CBMC full-domain proof of the permission subset test over all 256x256 pairs",
    level_note="only the permission predicate so far",
)
