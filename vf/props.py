"""Per-property configuration: which Verus units and Kani harness sets decide it.

`labels`: obligation-label prefixes that belong to the property (units are shared between
properties; an obligation is counted only under the properties that list its prefix).
Kani tags: C = complete (full input domain, no data-dependent loop), B = bounded stand-in (never
counted as proved)."""
from kani_run import Harness, KaniSet

TECH = ("contract-based deductive verification: requires/ensures/invariants spliced onto functions extracted "
        "verbatim from /repo on every run, discharged by Verus/Z3 (unbounded); Kani/CBMC harnesses over the full "
        "input domain where loop-free; bounded Kani stand-ins labelled bounded")

MASK = ["mask.", "filter."]

PROPS = {}

PROPS["C02"] = dict(
    level="proof",
    verus=["c02_anchor", "c02_dispatch", "c02_matchers", "c02_regex", "c11_pattern_block"],
    labels=["C02."] + MASK,
    kani=[],
    witness=["c02_remainder.rs", "c02_case.rs", "c02_model.rs", "c02_regex_model.rs"],
    trusted=["memchr::memmem::find = first occurrence (shim)", "str::starts_with/ends_with/contains byte-level axioms (&str and ASCII char patterns)",
             "UTF-8 facts stated as axioms: injectivity, both ends of a string are character boundaries, an occurrence of one string in another ends on a character boundary",
             "vstd's prophetic iterator model for ExactSizeIterator::len and Iterator::any over the rule's pattern iterator",
             "in the dispatch unit the per-shape matchers are uninterpreted; their bodies are proved in unit c02_matchers against their own contracts (the two units are not composed mechanically)",
             "RegexManager::matches (regex cache keyed by rule id) and the regex crate are not under contract: rx_spec is uninterpreted in the matcher unit",
             "compile_regex (unit c02_regex): the four Lazy<Regex> substitutions (their pattern texts pinned token for token), str::replace unescaping and the regex builders are uninterpreted; proved is the wiring only: order of the substitutions, placement of the `|` anchors outside the translated body, empty pattern => match-all, one pattern => regex / several => regex set of exactly those patterns, Unicode mode off; format!(\"{}{}{}\") = concatenation (axiom for that literal); the pattern iterator materialised (R5)",
             "Request well-formedness: the request hostname is a slice of the request URL (url_parser; preparsed() callers)",
             "pattern/anchor/hostname extraction (unit c11_pattern_block, two R7 block lifts of NetworkFilter::parse): where the host part of a `||` rule is cut, which range of the pattern text is the body (trailing/leading '*' dropped, a lone '^' after the host and scheme-only bodies consumed) and that the stored body is that text; the anchor / regex BITS the block sets are not in the contract; R9 lift of the `[/^*]` regex = first of these three bytes; to_ascii_lowercase uninterpreted; a String/&str with equal bytes has the same text (utf8_text)"],
    assumptions=["machine integers are modelled exactly by Verus (overflow checked)"],
    level_text="Verus proves, for all strings, that hostname anchoring holds exactly at label-aligned occurrences (sound and complete), "
               "that the anchor/regex flag combination selects the matcher the pattern syntax denotes, the slicing safety and result of the "
               "remainder-after-hostname helper, and the bodies of all nine per-shape matchers over any pattern iterator: plain = substring, '|p' = prefix, 'p|' = suffix, '|p|' = equality, "
               "the '||host' shapes = label-aligned anchoring plus the remainder predicate on the text after the host (exactly, whenever the host text occurs once in the URL); "
               "and that a '*' / '^' pattern is compiled from escape -> '*' -> '^' substitutions applied to the pattern body alone with the '|' anchors added around the result",
    level_note="regex semantics are outside the contracts; known finding (witness inputs replayed on the real crate): where the rule's host text occurs in the URL before its label-aligned occurrence, the remainder is taken after the wrong occurrence",
    design_ref="DESIGN.md section 4, C02",
)

PROPS["C03"] = dict(
    level="proof",
    verus=["c02_dispatch", "c03_parse_mask", "c03_apply_options", "c03_option_text", "c03_check_options", "c05_optimizer", "c06_matches", "c04_precedence", "c12_request", "c12_classify", "c01_get_tokens"],
    labels=["C03.", "C05.select.", "C04.check.unsupported", "C12.new.third_party", "C12.new.classify", "C12.preparsed.", "C12.classify.", "C01.get_tokens."] + MASK,
    witness=["c12_requests.rs", "c03_model.rs", "c03_domain_names.rs"],
    kani=[KaniSet("src/filters/network_matchers.rs", "c03_options.rs", [
        Harness("c03_options_nodomain", "C03.options.nodomain", "C", "full domain: 2^32 masks x 17 request types x scheme x party; loop-free"),
        Harness("c03_type_bit", "C03.type_bit", "C", "all 17 request types"),
        Harness("c03_options_domains", "C03.options.domains", "B", "<=2 source hashes x <=2 included x <=2 excluded over an 8-value hash universe (loop bound 4, unwinding assertions on)"),
    ]),
        KaniSet("src/request.rs", "c03_request.rs", [
            Harness("c03_request_classify", "C03.request.classify", "C", "every (type alias, scheme, party) of the 24-entry alias table x 9 schemes; string loops bounded by the longest literal (unwind 20, unwinding assertions on)"),
        ])],
    trusted=["option text -> option AST (unit c03_option_text): the name/alias/polarity/error table of parse_filter_options is proved against a table written from the option syntax; the text splitting around it is lifted and uninterpreted: split(','), trim_start_matches('~'), splitn(2,'='), the '|'-separated domain list closure chain, the VALID_PARAM regex; String/Vec values are their content (string_ext, vec_ext)",
             "the AST -> mask/modifier/tag step and the two bit-mask blocks after it: R7 block lifts, R10 for_each->for and local macro expansion",
             "seahash of domain names, sort/dedup of the domain list, the OR-fold of the union (lifted, uninterpreted); check_options assumes what they establish: domain lists sorted, the recorded union covers every listed hash (lists_wf)",
             "utils::bin_lookup = membership on a sorted slice (binary_search); `xs.iter()` -> `vf_iter(xs)` plumbing with std's any/all semantics (closures verbatim, annotated)",
             "seahash injectivity for domain hashes"],
    assumptions=[],
    level_text="Kani/CBMC proves check_options equal to a reference written from the option semantics for every 32-bit mask, request type, scheme and party "
               "(loop-free, complete); Verus proves every mask helper against the flag its name denotes, and check_options as a whole - type, scheme, party and the initiator-domain lists of any length (some source-host hash listed, none excluded) - for every mask and request; request classification over the alias/scheme tables",
    level_note="the Kani domain-list harness stays as a bounded twin (it replays counterexamples on the real crate); the option text table and the option application are under contract (units c03_option_text, c03_apply_options), the rest of NetworkFilter::parse between them is not",
    design_ref="DESIGN.md section 4, C03",
)

PROPS["C04"] = dict(
    level="proof",
    verus=["c04_partition", "c04_precedence", "c04_ids", "c01_lookup", "c05_optimizer", "c01_get_tokens", "c01_index"],
    labels=["C04.", "C01.check", "C05.fusion.", "C05.key.", "C05.select.", "C01.get_tokens.", "C01.index."] + MASK,
    witness=["c04_precedence.rs", "c07_tags.rs", "c04_model.rs"],
    kani=[KaniSet("src/filters/network.rs", "c04_ids.rs", [
        Harness("c04_id_twin", "C04.id.twin", "B", "twin of C04.id.all_components: strings <= 2 ASCII chars, domain lists <= 2 hashes, symbolic 32-bit mask (unwind 4, unwinding assertions on)"),
    ])],
    trusted=["NetworkFilterList::new/add_filter hold exactly the given rules (C01 units)",
             "R6: tagged.check(..).or_else(|| filters.check(..)) means 'a tagged hit, else a normal hit'",
             "rule ids: get_id/get_id_without_badfilter uninterpreted here"],
    assumptions=["check() returns a rule of the list it probes (index well-formedness, C01)"],
    level_text="Verus proves that Blocker::new files every surviving rule into exactly the list its category names and drops exactly the badfilter-cancelled ones, "
               "and that check_parameterised computes matched/important/exception by the documented precedence from the lists' lookup contracts",
    level_note="monotonicity follows from the matched formula; the or_else expression is a trusted lift",
    design_ref="DESIGN.md section 4, C04",
)

PROPS["C06"] = dict(
    level="proof",
    verus=["c04_partition", "c10_engine", "c02_regex", "c01_index", "c08_wire", "c05_optimizer", "c13_store", "c08_wiring"],
    labels=["C06.", "C07.engine.", "C10.engine.ok_replaces_rules", "C07.tags_with_set.", "C02.regex.make.function_of_inputs", "C02.regex.compile.function_of_inputs", "C01.index.",
            "C08.wire.roundtrip_fields", "C08.wire.ser_fields", "C08.wire.de_fields", "C05.fusion.", "C13.engine.", "C13.store.", "C08.to_wire.", "C08.from_wire."] + MASK,
    kani=[],
    witness=["c06_cache.rs", "c07_tags.rs", "c05_equiv.rs", "c08_roundtrip.rs", "c18_model.rs", "c06_model.rs"],
    trusted=["NetworkFilterList::add_filter appends to the rules held (C01 units)", "regex cache (unit c02_regex, two R7 lifts of the arms of `match self.map.entry(key)` in RegexManager::matches): the Entry API itself is outside the contracts - that `key` selects this rule's entry, VacantEntry::insert hands back the stored value, cleanup() only ever sets a held regex to None; whether a pattern text compiles and whether a compiled regex matches are functions of the text and flags (uninterpreted); usage counters do not overflow",
             "the cache invariant (a held regex was compiled from the filter that owns the key = its address) is a precondition of the arms and re-established by them; it survives the life of a Blocker because the cache is emptied whenever filters are freed and reallocated: proved for Blocker::optimize and tags_with_set (unit c04_partition, R6 lift of `self.borrow_regex_manager().clear()` to a call on the owned cell), Engine::deserialize installs a new Blocker with a new manager; that nothing else frees a queried filter is not mechanised"],
    assumptions=[],
    level_text="Verus proves batch construction and incremental add_filter agree on one category function, that a rejected add leaves every list unchanged, and that filter_exists looks where add_filter stores; and that a regex query answers as the regex the rule denotes whether that regex was cached, discarded by cleanup and rebuilt, or never built (a rebuilt regex is the one that was discarded)",
    level_note="batch-vs-incremental, tag-rebuild and regex-cache clauses; elapsed time itself (when cleanup runs) is not modelled",
    design_ref="DESIGN.md section 4, C06",
)

PROPS["C07"] = dict(
    level="proof",
    verus=["c01_lookup", "c04_partition", "c04_precedence", "c10_engine", "c05_optimizer", "c03_apply_options", "c08_wire"],
    labels=["C07.", "C05.key.", "C01.check", "C06.add_filter.", "C03.apply_options.", "C08.wire.roundtrip_fields", "C08.wire.ser_fields", "C08.wire.de_fields", "C04.check.important", "C04.check.matched", "C04.check.exception", "C04.new.importants", "C04.new.exceptions", "C04.new.tagged", "C04.new.csp"] + MASK,
    kani=[],
    witness=["c07_tags.rs", "c07_model.rs"],
    trusted=["R6: the filter/clone iterator chain in tags_with_set computes the stated sub-sequence",
             "enable_tags/disable_tags set algebra (iterator chains) not under contract",
             "String obeys the hash key model (vstd axiom)"],
    assumptions=[],
    level_text="Verus proves the tag test inside check/check_all (a hit is returned iff it matches and its tag is enabled), which lists are probed with the enabled set "
               "(important, tagged, exception) that tags_with_set assigns the set and rebuilds the active tagged list from exactly the rules whose tag is in it (the tag test itself is under contract, also for a rule decoded without a tag), that use_tags / enable_tags / disable_tags are assignment / union / difference, and that Engine::deserialize keeps the caller's set and rebuilds the active list for it",
    level_note="the iterator chains that build the new tag set in enable_tags / disable_tags are lifted (R6) with the union / difference as their stated contract; witness histories (vf/witness/c07_tags.rs) cover same-bucket tags, a load and verbatim tag names on the real crate",
    design_ref="DESIGN.md section 4, C07",
)

PROPS["C01"] = dict(
    level="proof",
    verus=["c01_tokenizer", "c01_get_tokens", "c01_index", "c01_lookup", "c04_partition", "c04_precedence", "c01_tok_sound", "c05_optimizer"],
    labels=["C01.", "C04.new.", "C04.check.", "C05.key.", "C05.fusion."] + MASK,
    witness=["c01_linear_scan.rs", "c07_tags.rs"],
    kani=[],
    trusted=["per-rule matcher uninterpreted (C02/C03)", "probe sequence of a request (iterator chain) materialised (R5)",
             "seahash (uninterpreted), char::is_alphanumeric (uninterpreted token alphabet)",
             "char_indices(): offsets are increasing character boundaries starting at 0 (R5 helper contract)",
             "insert_dup (Entry API + binary_search_by closure): keeps what is there, adds the rule under the key; token_histogram; the closure that pairs each rule with get_tokens() in NetworkFilterList::new; NetworkFilterList::optimize",
             "the string-level lemma 'a pattern token pinned as stated is a whole token of every matching URL' is not mechanised"],
    assumptions=["no 64-bit hash collision", "URLs with fewer than 127 tokens (buffer limit clause of the tokenizer contract)"],
    level_text="Verus proves, for all strings, that the tokenizer emits exactly the admissible maximal runs (sound and complete up to the buffer limit) with the skip rules the callers request, "
               "that every token get_tokens files a rule under is of a kind guaranteed to be probed (anchor-derived skip rules from the statement, not from the code), that batch construction and add_filter file a rule, for each of its token groups, under a token of that group or the always-probed bucket 0 and under nothing else, that check/check_all return exactly the "
               "matching tag-active rules of the probed buckets, and the category split and precedence",
    level_note="the string lemma (a token of a literal pattern text under the anchor-derived skip rules is a whole token of every URL containing it) is mechanised for literal text (unit c01_tok_sound, one UTF-8 axiom: decoding is local); its lifting over `^` separators and regex-matched patterns, and the final composition into one index-completeness theorem, are not",
    design_ref="DESIGN.md section 4, C01",
)

PROPS["C13"] = dict(
    level="proof",
    verus=["c13_redirect", "c04_partition", "c18_gate", "c05_optimizer", "c13_store", "c03_option_text"],
    labels=["C13.", "C04.new.redirects", "C04.new.filters", "C06.add_filter.", "C18.perm.is_default", "C05.select.", "C03.option_text."] + MASK,
    kani=[],
    witness=["c13_store.rs", "c13_model.rs"],
    trusted=["memchr::memrchr = last occurrence (shim)", "<i32 as FromStr>::from_str uninterpreted", "[T]::contains = membership",
             "data-URL formatting in ResourceStorage is lifted; the name/alias lookup is uninterpreted in the gate proof (unit c18_gate) and under contract in unit c13_store (get_internal_resource: by name, else through the alias; HashMap<String,_>::get(&str) = lookup by text)",
             "resource store (unit c13_store): the content validation at the head of add_resource (base64 / utf-8 / dependency support) is a lifted function of the resource alone (R6); once(&name).chain(aliases.iter()) and the caller's IntoIterator are materialised (R5); `.unwrap_or_else(|_e| ..)` on Result<(), _> drops the error (R6); String values are their text"],
    assumptions=[],
    level_text="Verus proves the redirect selection block: the chosen option is a non-excepted matching redirect rule of maximal priority, priority = integer suffix after the last ':' (else 0), "
               "resource name = text before it; and that redirect rules are filed in the redirect list and block only with the redirect (not redirect-rule) option; "
               "for the resource store: add_resource either fails and changes nothing or adds exactly the resource and its aliases (refused exactly on invalid content or a taken identifier), every alias belongs to a loaded resource that lists it (invariant), "
               "from_resources is the left fold of add_resource over an empty store, Engine::use_resources replaces the engine's store by it and Engine::add_resource is add_resource on it; a lookup answers by name, else through the alias",
    level_note="an exception cancels the redirections to the resource it names whatever their priority (the statement's reading; the code compared whole option values until fix d03f383)",
    design_ref="DESIGN.md section 4, C13",
)

PROPS["C10"] = dict(
    level="proof",
    verus=["c10_header", "c10_engine", "c04_partition", "c18_gate", "c02_regex"],
    labels=["C10.", "C07.tags_with_set.tag_test", "C02.regex.compile.safety", "C02.regex.make.safety", "C18.scriptlet.safety"],
    witness=["c10_flips.rs"],
    kani=[KaniSet("src/data_format/mod.rs", "c10_header.rs", [
        Harness("c10_header_twin", "C10.hdr.twin", "B", "twin of C10.hdr.*: every byte string of length <= 12 that does not reach the msgpack decoder (decoder stubbed; unwind 14, unwinding assertions on)"),
    ]),
        KaniSet("src/cosmetic_filter_cache.rs", "c10_as_css.rs", [
            Harness("c10_as_css_total", "C10.as_css.total", "B", "operator lists of length 0, 1, 2 over {plain selector, other operator} x {no action, style, remove}, empty strings (unwind 4)"),
        ]),
        KaniSet("src/filters/network_matchers.rs", "c10_wf.rs", [
            Harness("c10_wf_no_hostname", "C10.wf.no_hostname", "C", "all 2^32 masks x {empty, one-literal} pattern, hostname absent, one fixed request: the four non-regex hostname matchers answer without panicking (string loops bounded by the fixed literals, unwind 10)"),
        ])],
    trusted=["rmp-serde msgpack decoding (v0::DeserializeFormat::deserialize body)",
             "witness C10.witness.single_byte_corruptions is a BOUNDED stand-in (concrete inputs, not a proof): all single-bit flips and nil replacements of one ~1 kB buffer holding every rule kind; load, queries, tag switches and re-serialization must not panic",
             "decoded TEXTS reaching code that the parser normally guards: get_scriptlet_resource (unit c18_gate) and compile_regex / make_regexp (unit c02_regex) are now under contract WITHOUT a precondition on the text (C10.scriptlet.malformed_args_is_error, C02.regex.compile.safety, C18.scriptlet.safety) - both had carried a 'the parser establishes it' precondition that a load does not establish (fixes ed0ea80, e0b01ce); other functions that read decoded texts (CosmeticFilter fields, selectors, hostnames) are covered only by the bounded witness",
             "the tag test of Blocker::tags_with_set (run by every load) is under contract for rules decoded without a tag (R7 lift of the closure body, unit c04_partition)",
             "shape invariants of decoded rules beyond the ones listed: a hostname-anchored rule without hostname (Kani C harness), a procedural filter with any operator list incl. an empty one (Kani B harness, lists <= 2); fusion of decoded rules with empty any-of lists is covered by C05.fusion.safety (unit c05_optimizer, claimed under C05)"],
    assumptions=[],
    level_text="Verus proves, for byte slices of any length, that the header/version dispatch never indexes out of bounds and maps each header class to the documented error, and that a failed load leaves the engine unchanged; Kani proves that hostname-less anchored rules do not panic the matchers (all masks) and, bounded, that the CSS view of a decoded procedural filter never panics",
    level_note="msgpack decoding (rmp-serde) is trusted; the procedural-filter harness is a bounded stand-in (operator lists of length <= 2)",
    design_ref="DESIGN.md section 4, C10",
)

PROPS["C18"] = dict(
    level="proof",
    verus=["c18_gate", "c18_stringify", "c16_resources", "c18_args", "c11_cosmetic_parse", "c13_store"],
    labels=["C18.", "C13.redirect_resource.", "C13.kind.", "C16.resources.", "C16.cosmetic.parse.", "C11.cosmetic.parse.safety", "C13.store.", "C13.engine."],
    witness=["c18_args.rs", "c11_junk.rs", "c18_model.rs", "c16_blanks.rs"],
    kani=[KaniSet("src/resources/mod.rs", "c18_perm.rs", [
        Harness("c18_perm_subset", "C18.perm.subset", "C", "all 256x256 pairs; loop over the 8 bit positions fully unwound"),
        Harness("c18_perm_default", "C18.perm.default", "C", "all u8 x u8, loop-free"),
    ])],
    trusted=["name/alias lookup in ResourceStorage (HashMap<String,_> probed by &str) uninterpreted",
             "template rendering, base64 decoding: lifted (R6) in the gate proof; argument-list parsing (unit c18_args): index_next_unescaped_separator (first separator with an even number of backslashes before it; needs_transform) and normalize_arg (its left-to-right pass) are proved functionally, parse_scriptlet_args only for totality (no slice off a boundary or out of range, no overflow, termination) - WHICH pieces it returns is not under contract; str::find / trim / chars().next() lifted (R6)",
             "stringify_arg: only its escaping core write_string_complex and the ESCAPED table are under contract; the surrounding fast path (labelled block: outside the Verus subset) and the quotes are not",
             "core::fmt: format!(\"{:04x}\", byte) is zero-padded lower-case hex (axiom for that literal only)",
             "Iterator::find over a slice returns an element of the slice (vf_iter shim)",
             "termination of recursive_dependencies on cyclic graphs is NOT proved (exec_allows_no_decreases_clause)",
             "dependency closure (C18.deps.added_entries_closed, C18.scriptlet.closure_granted_and_listed): stated under store_names_wf - the store resolves every resource it hands out under that resource's own name too - which unit c13_store proves of the real store (C13.store.lookup.loaded) but which is a hypothesis here because the gate unit keeps the lookup uninterpreted; Iterator::find for slice iterators returns an accepted element / none iff all refused (vf_iter shim)",
             "per-host merge (unit c16_resources): entry().and_modify(|=).or_insert() and HashMap::remove(&str) are lifted (R6) with content-equality contracts; get_scriptlet_resources' iteration over the merged map is uninterpreted"],
    assumptions=["scriptlet argument lists stored in rules parse (established at rule parse time)"],
    level_text="Kani/CBMC proves the permission subset test over all 256x256 pairs; Verus proves that a scriptlet, and every dependency added to the page's list, is handed out only when every bit it requires "
               "was granted to the requesting list (for any dependency graph, any prior list contents), that a scriptlet is emitted only together with a dependency-closed list of resources, every member granted to the list that requested THIS injection and present in the page's list (whatever a refused scriptlet or another list left there before), that only injectable kinds are injected, that a resource requiring any permission or of a "
               "non-redirectable kind is never served as a redirect, that the escaping core of stringify_arg writes, byte for byte, the JSON escape of the argument, each escape decoding back to its byte (all strings), "
               "and that the per-host merge requests each scriptlet with the OR of the permissions of the lists that asked for it, removes exactly the identically-spelled exceptions, and everything under a blanket exception",
    level_note="the split of an argument list into arguments (parse_scriptlet_args) is proved total, not functionally",
    design_ref="DESIGN.md section 4, C18",
)

PROPS["C05"] = dict(
    level="proof",
    verus=["c05_optimizer", "c05_grouping", "c09_list_optimize", "c04_partition", "c02_regex", "c02_matchers", "c09_order"],
    labels=["C05.", "C02.regex.", "C09.list_optimize.", "C02.match.", "C09.optimize."] + MASK,
    kani=[],
    witness=["c05_equiv.rs", "c07_tags.rs"],
    trusted=["core::fmt: for a fixed format string the key is an injective function of the formatted arguments (R6 lift of format!)",
             "Iterator::any/all over a slice (vf_iter shim)", "raw_line join (debug text only)",
             "NetworkFilterList::optimize bucket rewrite: unit c09_list_optimize (drain / Arc::try_unwrap / collect lifted, R5/R6)",
             "apply_optimisation (unit c05_grouping): itertools partition_map = the two order-preserving halves, insert_dup = append under the key, HashMap::into_iter = the entries each once (R5 lifts); generic parameter specialised to SimplePatternGroup (R3); select / key / fusion enter as the abstract contracts of unit c05_optimizer",
             "any-of law of the matcher for fused patterns: the plain/anchored matchers test `any` pattern (unit c02_matchers) and a fused regex is the regex set of exactly the members' translations (unit c02_regex); the lemma joining them is not mechanised"],
    assumptions=[],
    level_text="Verus proves that only rules without domains/hostname anchor/redirect/csp are eligible, that two rules with equal grouping keys agree on mask and tag "
               "(self-composition of the real key expression), that fusion keeps every non-pattern field of the first member, sets the regex bits to the disjunction and carries exactly the members' patterns, "
               "that apply_optimisation fuses exactly the key groups of several selected rules, each into one rule built from that whole group, and returns every other rule unchanged (none lost, none both fused and kept), "
               "and that the removeparam list is never optimised",
    level_note="fuse-equivalence relies on the matcher's any-of law, which is not mechanised as one lemma",
    design_ref="DESIGN.md section 4, C05",
)

PROPS["C12"] = dict(
    level="proof",
    verus=["c12_request", "c12_userinfo", "c12_domain", "c04_precedence", "c12_offsets", "c12_classify"],
    labels=["C12.", "C03.request.", "C04.check.unsupported"],
    kani=[KaniSet("src/request.rs", "c03_request.rs", [
        Harness("c03_request_classify", "C03.request.classify", "C", "every (type alias, scheme, party) of the 24-entry alias table x 9 schemes; string loops bounded by the longest literal (unwind 20, unwinding assertions on)"),
    ])],
    witness=["c12_requests.rs", "c12_model.rs", "c12_hosts_model.rs"],
    trusted=["url_parser: scheme characters (parse_scheme), port/IPv6 handling, IDN/punycode, percent-encoding, registrable-domain lookup (addr/PSL) - NOT under contract; under contract (unit c12_userinfo): where the userinfo ends (Parser::parse_userinfo, which only appends to the buffer) and where the host ends (the scanning loop of Parser::parse_host, R7 block lift); (unit c12_offsets) the three byte offsets of Hostname: Hostname::parse, Parser::parse_url, parse_with_scheme, after_double_slash, parse_non_special, Hostname::host_str / has_host and the Range slice; of parse_host's tail the write of the host (lower case when ASCII, IDNA mapping otherwise) and the reported buffer length are under contract (R7 block lift), the take/collect that removes tab / newline from the host text is not",
             "UTF-8 facts (axioms, unit c12_offsets): the encoding of a concatenation is the concatenation of the encodings; the encoding of a character prefix ends on a character boundary; in-place ASCII lower-casing changes no character's encoded length; a by-value `mut self` receiver is spelled as a named parameter (R1)",
             "the `Input` character iterator (a wrapper around str::Chars) is a trusted abstraction: next() yields the characters in order, clone() forks the position, next_utf8() also skips tab/newline; str::chars() materialised (R5); what is written to the serialisation buffer is not part of the contract",
             "inputs of fewer than 2^31 characters (parse_userinfo counts in i32) and fewer than usize::MAX/4 characters (byte counter of parse_host)",
             "registrable domain (unit c12_domain, DefaultResolver::get_host_domain): the public-suffix lookup of the addr crate is uninterpreted (a parsed name reports a root and a suffix that are texts at the end of the host); `x.unwrap_or_else(|| y)` with a pure closure rewritten to a match (R6)",
             "memchr::memchr = first occurrence (shim)"],
    assumptions=[],
    level_text="Verus proves the plumbing of Request::new and Request::preparsed: hostname = host of the parsed URL, third-party iff the registrable domains differ or the source is absent/unparseable, "
               "scheme handed to classification = text before the first ':'; that the URL parser takes as host the text right after the LAST '@' before the first '/', '?' or '#' (or '\\' for special schemes) and ends it at the first ':' outside brackets, '/', '?', '#' (or '\\'); that every Hostname the scanner returns carries offsets that are ordered, in range and on character boundaries of the normalised URL, with the host's written normal form between host_start and host_end, so that host_str never slices out of range; Kani proves the classification (websocket forcing, supported schemes) over the alias/scheme tables",
    level_note="IDN, percent-encoding and the public-suffix lookup are trusted (url_parser); panic-freedom is decided for the offset arithmetic and slices of the URL scanner, not for the idna / addr crates",
    design_ref="DESIGN.md section 4, C12",
)

PROPS["C16"] = dict(
    level="proof",
    verus=["c16_labels", "c16_resources", "c16_store", "c16_engine", "c12_domain", "c11_cosmetic_parse", "c11_locations", "c12_offsets"],
    labels=["C16.", "C18.resources.", "C12.domain.", "C17.cosmetic.parse.", "C18.cosmetic.parse.", "C12.offsets.", "C12.host.", "C12.scheme."],
    witness=["c16_generic_parse.rs", "c16_scoping.rs", "c18_args.rs", "c16_model.rs", "c16_location_names.rs", "c16_blanks.rs"],
    kani=[],
    trusted=["memchr/memrchr (shims)", "seahash uninterpreted",
             "CosmeticFilter::parse is under contract in unit c11_cosmetic_parse for its frame (markers, +js form, generic restrictions, double negation) with parse_after_sharp_nonscript and validate_css_selector uninterpreted; the location list is under contract in unit c11_locations: the per-entry closure of locations_before_sharp (R7 lift of the closure body: kind and text of every entry) and parse_before_sharp (each of the four lists holds the hashes of the entries of its kind; idna and seahash uninterpreted, sort = a permutation), joined by the R5 materialisation `entries = split(',').filter_map(closure)` which is trusted; add_generic_filter is under contract in unit c17_generic (uninterpreted relation here); the generichide lookup for the page (Engine::url_cosmetic_resources, Blocker::check_generic_hide) is under contract in unit c16_engine with Request::new, NetworkFilterList::check and hostname_cosmetic_resources entering by their contracts",
             "R7 lift in HostnameFilterBin::insert: `if let Some(b) = map.get_mut(k) { b.push(v) } else { map.insert(*k, vec![v]) }` = append under the key (HashMap::get_mut has no vstd specification)",
             "R5/R6 lifts in store_rule: Option<&str>::map(to_string), serde_json::to_string of the procedural filter (an uninterpreted function of operator list and action), iter::empty().chain(a).chain(b) = concatenation; derived Clone = structural copy",
             "a rule has at least one selector operator (precondition of plain_css_selector's assert!, established by CosmeticFilter::parse)",
             "std HashSet / HashMap (vstd's model; String and &str keys compare by content), Vec iteration order",
             "R5/R6 lifts in hostname_cosmetic_resources: iter().chain().collect() = concatenation, difference().cloned().collect() = set difference, into_iter().for_each(insert) = union, "
             "entry().and_modify(|=).or_insert() = OR-merge under a content-equal key, HashMap::remove(&str) = removal of the content-equal key",
             "ResourceStorage::get_scriptlet_resources (uninterpreted function of the injection map; its gate is unit c18_gate)",
             "url_parser::get_host_domain returns a slice of the hostname on character boundaries"],
    assumptions=["the domain handed in is a suffix of the hostname (computed by url_parser)"],
    level_text="Verus proves, for all strings, that the lookup hashes of a page host are exactly the host itself and every parent domain down to the registrable domain, and the entity forms with the public suffix removed plus the public suffix itself; "
               "and, for every rule database and host, that hostname_cosmetic_resources returns exactly: hide selectors filed under some lookup hash minus those unhidden under any lookup hash (plus the unscoped misc generic selectors minus the unhidden ones unless generichide), "
               "procedural/action filters minus their exceptions, every unhidden selector as exceptions, and the scriptlet injections requested under some lookup hash minus identical exceptions (none under a blanket exception); "
               "that store_rule files a rule under every hostname and entity hash in the bin its kind names (the exception bin for `#@#` rules) and under every negated location in the opposite bin, and nothing else; "
               "that add_filter sends unscoped rules to the generic stores, scoped rules to the scoped database, and a rule with only negated locations to both (as its hidden generic rule); that CosmeticFilter::parse never yields an exception with negated locations, a scriptlet rule that is not one plain argument text without action, or a rule without locations that is an exception, a scriptlet rule or carries an action; that each entry of the location list gets the kind and text its `~` / `.*` spelling names and that the four hash lists of a rule hold exactly the hashes of the entries of their kind",
    level_note="the registrable-domain lookup (addr crate / PSL), CSS validation and the split(',') that feeds the per-entry closure of the location list are not under contract; one known finding (witness input): a negation-only rule with an action, procedural operators or a scriptlet applies on no host",
    design_ref="DESIGN.md section 4, C16",
)

PROPS["C08"] = dict(
    level="proof",
    verus=["c08_wire", "c08_wiring", "c08_shape", "c08_legacy"],
    witness=["c08_permissions.rs", "c08_roundtrip.rs"],
    labels=["C08."] + MASK,
    kani=[KaniSet("src/data_format/v0.rs", "c08_wire.rs", [
        Harness("c08_wire_scalars", "C08.wire.scalars_twin", "C", "mask (2^32), id (2^64) and both domain unions fully symbolic through the real From impls; loop-free"),
    ])],
    trusted=["serde / rmp-serde: a struct is written as the array of its fields and read back position by position (wire step)",
             "NetworkFilterList <-> v0 list form: per-rule conversion applied to every bucket (views equal)",
             "legacy cosmetic rule db (unit c08_legacy): R7 lifts of `db.entry(k).and_modify(push e).or_insert_with(vec![e])` = append under the key, of the Style/UnhideStyle pushes (they do not touch the four projections), R5 lift of HashMap::into_iter (the entries, each key once); HostnameFilterBin::insert's contract is proved in c16_store; vstd's model of HashMap::iter",
             "the wiring unit abstracts the legacy conversion to 'the core part survives' (core = hide/unhide/uninject buckets and injection texts, as proved in c08_legacy); the two units are not composed mechanically",
             "Option::or (assume_specification)"],
    assumptions=["rules are well-formed: a modifier value belongs to a redirect / csp / removeparam rule (parser)"],
    level_text="Verus proves, for all field values, that a rule survives NetworkFilter -> v0 serialize struct -> (position-wise wire) -> v0 deserialize struct -> NetworkFilter field by field; that the "
               "Serialize and Deserialize structs list the same fields in the same order (computed from the struct text each run); and that every component of the blocker and the cosmetic cache is wired to the "
               "field of the same name in both directions; and, on the real conversion code, that the legacy cosmetic rule db round trip preserves, for every lookup hash, the hide, unhide and scriptlet-exception buckets exactly "
               "and the scriptlet-injection texts in order",
    level_note="three known findings: removeparam is not on the wire (two obligations), and the permission of a scoped scriptlet injection is not on the wire (witness replay)",
    design_ref="DESIGN.md section 4, C08",
)

PROPS["C09"] = dict(
    level="proof",
    verus=["c09_order", "c09_list_optimize", "c05_grouping", "c08_shape", "c08_wiring", "c04_partition", "c05_optimizer"],
    labels=["C09.", "C08.from_wire.", "C08.to_wire.", "C08.shape.", "C05.grouping.", "C04.new.tagged", "C05.fusion."] + MASK,
    kani=[],
    witness=["c09_reload.rs", "c08_roundtrip.rs"],
    trusted=["slice::sort_by_key sorts by the key and permutes (R6 lift)", "apply_optimisation (unit c05_grouping) regroups through a HashMap whose iteration order is arbitrary: its contract is order-free (which groups are fused, what is kept)",
             "NetworkFilterList::optimize (unit c09_list_optimize): HashMap::drain = every entry once in some order, Arc::try_unwrap = taken out iff not shared, into_iter().map(Arc::new).collect() = element-wise (R5/R6 lifts); optimizer::optimize enters as an uninterpreted function of the rules handed in",
             "insert_dup keeps buckets sorted by id (Entry API + binary_search_by closure: outside the subset) - NOT under contract",
             "stabilize_hash{set,map}_serialization (BTreeMap / serde generics), unseeded seahash, rmp encoding: dependencies"],
    assumptions=[],
    level_text="Verus proves that the rules of a bucket are re-sorted by id after fusion whatever the regrouping order was, that NetworkFilterList::optimize rewrites every bucket as a function of that bucket alone (own rules optimised, shared rules appended in order; same keys) whatever order the map hands the buckets out in, and (computed from the struct text each run) that every HashMap/HashSet field that is serialized carries a stabilize_* ordered-view serializer",
    level_note="partial: byte-level determinism across processes and the reload fixpoint depend on serde/rmp/BTreeMap behaviour, which no contract here can reach",
    design_ref="DESIGN.md section 4, C09",
)

PROPS["C11"] = dict(
    level="proof",
    verus=["c11_lists", "c11_pattern_block", "c03_option_text", "c11_cosmetic_parse", "c11_locations"],
    labels=["C11.", "C03.option_text.safety"],
    kani=[],
    witness=["c11_hosts.rs", "c17_keys.rs", "c11_junk.rs", "c16_blanks.rs"],
    trusted=["NetworkFilter::parse: the pattern / anchor / hostname extraction block (every string slice of it) and the option-name table are under contract (units c11_pattern_block, c03_option_text, c03_apply_options, c03_parse_mask); the hostname normalisation and parse_hosts_style are under contract in c11_pattern_block with to_lowercase, trim_start_matches(\"www.\"), idna and the INVALID_CHARS regex uninterpreted; CosmeticFilter::parse (unit c11_cosmetic_parse) is under contract for its own slices (the two '#', the marker characters, the `+js(` ... `)` window) with validate_css_selector (assumed: an accepted selector has at least one operator) and parse_scriptlet_args (unit c18_args) entering by contract; the location list (closure of locations_before_sharp, parse_before_sharp) is under contract in unit c11_locations; of parse_after_sharp_nonscript (labelled block + table of function pointers: outside the Verus subset) only its two slice statements are under contract (R7 single-statement lifts), under the branch conditions they sit behind (token found at i, text ends with ')') and the shape of the three action tokens, which IS checked on the function's own constants (R2: byte-string literals spelled as byte arrays)",
             "str::trim, split_whitespace, lines (R5/R6 shims)", "memchr / memrchr (shims)", "UTF-8 facts: an ASCII byte has a character boundary on both sides; both ends of a string are boundaries; ASCII text is encoded byte for character",
             "per-line error isolation in parse_filters_with_metadata (map/filter_map closure pipeline) is not under contract"],
    assumptions=[],
    level_text="Verus proves for ALL UTF-8 strings that AbstractNetworkFilter::parse (offset arithmetic around '@@', '$', '|', '||') and the metadata cut-off loop never slice out of bounds or off a character boundary and terminate; "
               "that parse_filter routes each line to the parser its detected kind and the format name, returns exactly that parser's rule, never yields a rule of the excluded kind, and that hosts lines only yield parse_hosts_style rules; "
               "the unreachable!() arm of the hosts branch is proved unreachable; that parse_hosts_style refuses what is not a plain dotted hostname and otherwise parses `||` + the SAME normal form of the host that a `||` rule gets + `^` (no slice off a boundary for any text); that the pattern block of NetworkFilter::parse (hostname cut, '*' trimming, scheme detection) takes no slice out of bounds or off a character boundary and overflows no index, for every pattern string; and that CosmeticFilter::parse, the per-entry closure of its location list, parse_before_sharp and the two action slices of parse_after_sharp_nonscript do the same for every line (with the shape of the three action tokens checked on the function's own constants)",
    level_note="of NetworkFilter::parse the pattern block, the option table and the option application are under contract, of CosmeticFilter::parse its frame, the location list and the action slices; CSS validation, scriptlet-argument splitting beyond totality, key_from_selector (witness inputs only) and the list-level pipeline (map / filter_map / partition_map closures: line independence) are not decided",
    design_ref="DESIGN.md section 4, C11",
)

PROPS["C15"] = dict(
    level="proof",
    verus=["c15_csp", "c01_lookup", "c05_optimizer", "c03_apply_options", "c03_option_text", "c01_index", "c04_partition", "c12_request"],
    labels=["C15.", "C01.check_all.", "C05.select.", "C03.apply_options.", "C03.option_text.", "C01.index.", "C06.add_filter.", "C04.new.csp", "C12.preparsed.", "C12.new."] + MASK,
    kani=[],
    witness=["c15_csp.rs", "c15_model.rs"],
    trusted=["R6: the `difference` + comma-join tail is lifted: its contract is 'None iff nothing remains, else the directive set of the string is enabled minus disabled'",
             "&str / String obey the hash key model (vstd axiom)", "csp option parsing: the option text table (unit c03_option_text: `csp` with an empty value carries no directive) and the option application (unit c03_apply_options) are under contract, the rest of NetworkFilter::parse is not; how csp rules are filed by token / domain (NetworkFilterList::add_filter, unit c01_index) is under contract"],
    assumptions=[],
    level_text="Verus proves get_csp_directives: no policy for non-(sub)document requests, none when a matching active csp exception carries no directive, otherwise exactly the directives of the matching active csp rules "
               "minus those of the matching csp exceptions (over check_all's contract, proved in c01_lookup, with the enabled tags); csp rules are never fused (C05.select)",
    level_note="the join/difference tail and rule parsing are trusted",
    design_ref="DESIGN.md section 4, C15",
)

for _p in PROPS.values():
    _p.setdefault("technique", TECH)
    _p.setdefault("explanation", "")

PROPS["C17"] = dict(
    level="proof",
    verus=["c17_generic", "c16_store", "c11_cosmetic_parse"],
    labels=["C17.", "C16.rule.hidden_generic_rule.", "C16.add_filter."],
    kani=[],
    witness=["c17_keys.rs", "c17_escapes.rs", "c16_generic_parse.rs", "c16_model.rs"],
    trusted=["key_from_selector (three regexes + CSS unescaping): key_spec is uninterpreted; assumed only that a key starts with the selector's own first character. Its behaviour on concrete selectors is covered by witness inputs replayed on the real crate (vf/witness/c17_keys.rs) and by a reference CSS unescaper run over a grid of escaped identifiers (vf/witness/c17_escapes.rs), not by a contract",
             "CosmeticFilter::plain_css_selector (uninterpreted)",
             "R7 lift: `if let Some(b) = map.get_mut(&k) { b.push(v) } else { map.insert(k, vec![v]) }` = append under a key (HashMap::get_mut has no vstd specification)",
             "R5/R6 lifts in hidden_class_id_selectors: into_iter() of the caller's collections materialised, <T as AsRef<str>>::as_ref uninterpreted, HashSet<String>::contains(&str) / HashMap<String,_>::get(&str) = lookup by text, extend(iter().filter(!excepted).map(to_owned)) = append of the unexcepted elements in order",
             "core::fmt: format!(\".{}\", s) / format!(\"#{}\", s) is the prefix character followed by s (axioms for these two literals)",
             "String values are their text (string_ext; the same fact the HashSet/HashMap key model for String relies on); UTF-8 encoding is injective",
             "the composition 'a rule filed as simple/complex under n is returned exactly for the name n' follows from the two contracts by reading them side by side; it is not mechanised as one lemma"],
    assumptions=[],
    level_text="Verus proves, for every cache state and every rule, that add_generic_filter files a plain selector in exactly one store - the simple or complex class/id store named by its leading key, or the misc store served with the per-site resources when it has no class/id key or none can be extracted - and leaves every other store unchanged; "
               "and, for any collections of class names, ids and exceptions, that hidden_class_id_selectors returns exactly, in order, for each name: the simple rule `.name` / `#name` if stored and not excepted, then the complex rules stored under it minus the excepted ones",
    level_note="the leading-key extraction (regexes, CSS unescaping) is outside the contracts; witness inputs cover concrete selectors only",
    design_ref="DESIGN.md section 10.3, C17",
)
