"""Per-property configuration: which Verus units and Kani harness sets decide it."""
from kani_run import Harness, KaniSet

PROPS = {}

PROPS["C10"] = dict(
    level="proof",
    verus=["c10_header"],
    kani=[],
    trusted=["rmp-serde msgpack decoding (v0::DeserializeFormat::deserialize body)"],
    assumptions=[],
    explanation="",
    level_text="Verus proves, for byte slices of any length, that the header/version dispatch never indexes out of bounds and maps each header class to the documented error",
    level_note="msgpack decoding (rmp-serde) is trusted; see evidence trusted_base",
)

PROPS["C18"] = dict(
    level="proof",
    verus=[],
    kani=[KaniSet("src/resources/mod.rs", "c18_perm.rs", [
        Harness("c18_perm_subset", "C18.perm.subset", "C", "all 256x256 pairs; loop over the 8 bit positions fully unwound"),
        Harness("c18_perm_default", "C18.perm.default", "C", "all u8 x u8, loop-free"),
    ])],
    trusted=[],
    assumptions=[],
    explanation="",
    level_text="Kani/CBMC full-domain proof of the permission subset test over all 256x256 pairs",
    level_note="only the permission predicate so far",
)

PROPS["C03"] = dict(
    level="proof",
    verus=[],
    kani=[KaniSet("src/filters/network_matchers.rs", "c03_options.rs", [
        Harness("c03_options_nodomain", "C03.options.nodomain", "C", "full domain: 2^32 masks x 17 request types x scheme x party; loop-free"),
        Harness("c03_type_bit", "C03.type_bit", "C", "all 17 request types"),
        Harness("c03_options_domains", "C03.options.domains", "B", "<=2 source hashes x <=2 included x <=2 excluded over an 8-value hash universe (loop bound 4, unwinding assertions on)"),
    ]),
    KaniSet("src/request.rs", "c03_request.rs", [
        Harness("c03_request_classify", "C03.request.classify", "C", "every (type alias, scheme, party) of the 24-entry alias table x 9 schemes; string loops bounded by the longest literal (unwind 20, unwinding assertions on)"),
    ])],
    trusted=[],
    assumptions=[],
    explanation="",
    level_text="x",
    level_note="x",
)
