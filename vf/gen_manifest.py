#!/usr/bin/env python3
"""Regenerates /verif/MANIFEST.json from vf/props.py (claimed checks) and vf/not_applicable.json."""
import json, os, sys
VF = os.path.dirname(os.path.abspath(__file__))
ROOT = os.path.dirname(VF)
sys.path.insert(0, VF)
import props

na = json.load(open(os.path.join(VF, "not_applicable.json")))
checks = []
for pid in sorted(props.PROPS):
    c = props.PROPS[pid]
    checks.append(dict(
        property_id=pid,
        quick_cmd="./check %s --tier quick" % pid,
        thorough_cmd="./check %s --tier thorough" % pid,
        evidence_file="/verif/evidence/%s.json" % pid,
        replay_cmd_template="./check %s --replay {path}" % pid,
        engine="vf",
        level_claimed=dict(category=c.get("level", "proof"), text=c["level_text"], design_ref=c.get("design_ref", "DESIGN.md section 4, " + pid)),
        level_note=c["level_note"],
        technique=c.get("technique", "contract-based deductive verification: Verus (unbounded) on functions extracted verbatim from /repo each run; Kani/CBMC full-domain loop-free harnesses; bounded Kani stand-ins labelled"),
    ))
claimed = {c["property_id"] for c in checks}
m = dict(
    version=1,
    setup_cmd="python3 vf/selftest.py",
    hooks=dict(
        guard="kani",
        enable="no hook is committed to /repo: Kani harness modules (#[cfg(kani)] / --cfg vf_replay) are appended to a scratch copy of /repo's working tree on every run; the Verus track reads /repo's sources and never builds them",
        baseline_off_cmd="bash vf/repo_tests.sh",
        source_commits=[],
        add_only=True,
    ),
    engines=[dict(name="vf", path="/verif/vf", serves_properties=sorted(claimed),
                  kind_free_text="extractor + contract splicer + Verus/Kani driver; obligations ledger; replay through cargo test on a scratch copy")],
    checks=checks,
    notes="Exit 0 = every obligation discharged; exit 1 + VIOLATION line = a named obligation that is discharged on the unchanged tree failed; exit 2 = undecided (lost anchor, unsupported construct, resource limit) - never reported as a violation. See DESIGN.md.",
    not_applicable=[x for x in na if x["property_id"] not in claimed],
)
json.dump(m, open(os.path.join(ROOT, "MANIFEST.json"), "w"), indent=1)
print("MANIFEST.json written: %d checks, %d not applicable" % (len(checks), len(m["not_applicable"])))
