#!/usr/bin/env python3
"""debug helper: write the generated (marker-free) text of a unit to /tmp/gen_<unit>.rs"""
import sys, os
sys.path.insert(0, os.path.dirname(os.path.abspath(__file__)))
from extract import Extractor, clean_markers
vf = os.path.dirname(os.path.abspath(__file__))
unit = sys.argv[1]
ex = Extractor(os.environ.get("VF_REPO", "/repo"), vf)
text, _ = ex.process(os.path.join(vf, "units", unit + ".rs"))
out = "/tmp/gen_%s.rs" % unit
open(out, "w").write(clean_markers(text))
print(out)
