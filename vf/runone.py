#!/usr/bin/env python3
"""debug helper: run one unit and print the ledger"""
import sys, os, tempfile, shutil, json
sys.path.insert(0, os.path.dirname(os.path.abspath(__file__)))
from verus_run import run_unit
vf = os.path.dirname(os.path.abspath(__file__))
unit = sys.argv[1]
repo = os.environ.get("VF_REPO", "/repo")
scratch = tempfile.mkdtemp(prefix="vf-")
try:
    r = run_unit(unit, repo, vf, scratch, keep=True)
    print("status", r.status, r.reason)
    for k, v in sorted(r.obligations.items()):
        print("  %-40s %s" % (k, v["status"]))
        if v["status"] == "failed" and "-v" in sys.argv:
            print(v["msg"])
    print("time %.1fs smt %dms" % (r.time_s, r.smt_ms), r.verus_summary)
    print("stats", r.stats)
    if "-k" in sys.argv and r.generated:
        shutil.copy(r.generated, "/tmp/last_unit.rs"); print("kept /tmp/last_unit.rs")
    if "-t" in sys.argv:
        print("\n".join(r.trusted)); print("\n".join(r.lifts))
finally:
    shutil.rmtree(scratch, ignore_errors=True)
