#!/usr/bin/env python3
"""./check <Cxx> [--tier quick|thorough]   |   ./check <Cxx> --replay <file>

Decides one property by running the deductive verifier(s) on contracts spliced onto functions
extracted from /repo's current working tree (Verus track) and on harnesses appended to a scratch
copy of it (Kani track).  Exit 0: every obligation discharged (known findings excepted, each
printed).  Exit 1: a named obligation failed => `VIOLATION property=<id> replay=<path>`.
Exit 2: undecided (lost anchor, unsupported construct, resource limit, tool crash) - never an alarm.
"""

import argparse
import concurrent.futures as cf
import json
import os
import re
import shutil
import subprocess
import sys
import tempfile
import time

VF = os.path.dirname(os.path.abspath(__file__))
ROOT = os.path.dirname(VF)
sys.path.insert(0, VF)

import kani_run  # noqa: E402
import props  # noqa: E402
from verus_run import run_unit  # noqa: E402

REPO = os.environ.get("VF_REPO", "/repo")


def load_known():
    p = os.path.join(ROOT, "known_findings.json")
    if not os.path.exists(p):
        return dict(findings=[], fixed=[])
    return json.load(open(p))


def sh(cmd, **kw):
    return subprocess.run(cmd, shell=True, capture_output=True, text=True, **kw)


def repo_state():
    head = sh("git -C %s rev-parse --short HEAD" % REPO).stdout.strip()
    dirty = bool(sh("git -C %s status --porcelain -- src Cargo.toml" % REPO).stdout.strip())
    return head + ("+dirty" if dirty else "")


def run_kani_sets(prop, cfg, tier, scratch, ledger, notes, bounded, replay_info):
    ksets = cfg.get("kani", [])
    wanted = []
    for ks in ksets:
        hs = [h for h in ks.harnesses if tier in h.tiers]
        if hs:
            wanted.append((ks, hs))
    if not wanted:
        return 0.0
    t0 = time.time()
    dst = kani_run.prepare_copy(REPO, scratch)
    # lib.rs gets the input-source module
    with open(os.path.join(dst, "src", "lib.rs"), "a") as f:
        f.write("\n" + open(os.path.join(VF, "kani", "vf_src.rs")).read())
    for ks, hs in wanted:
        err = kani_run.append_module(dst, ks, VF)
        if err:
            for h in hs:
                ledger[h.label] = dict(status="undecided", tool="kani", tag=h.tag, msg="lost anchor: " + err, time=0)
            return time.time() - t0
    allh = [h for _, hs in wanted for h in hs]
    # group by extra flags
    groups = {}
    for h in allh:
        groups.setdefault(tuple(h.extra), []).append(h)
    for extra, hs in groups.items():
        names = [h.name for h in hs]
        tmo = max(h.timeout for h in hs) + 120 * len(hs)
        rc, out, secs = kani_run.run_harnesses(dst, names, tmo, extra=extra, jobs=min(8, len(names)))
        res = kani_run.parse_output(out)
        if "error: could not compile" in out or ("error[" in out and not res):
            for h in hs:
                ledger[h.label] = dict(status="undecided", tool="kani", tag=h.tag, time=0,
                                       msg="harness does not compile against the current tree (lost anchor / changed signature):\n" + "\n".join(
                                           l for l in out.split("\n") if l.startswith("error"))[:1500])
            continue
        for h in hs:
            r = res.get(h.name)
            if r is None:
                ledger[h.label] = dict(status="undecided", tool="kani", tag=h.tag, time=0,
                                       msg="no result for harness (timeout or tool failure): " + out[-800:])
                continue
            entry = dict(tool="kani/cbmc", tag=h.tag, time=r["time"] or 0, harness=h.name, bound=h.bound)
            if r["status"] == "ok":
                if r["covers"] and r["covers"][0] != r["covers"][1]:
                    entry.update(status="undecided", msg="vacuity guard: %d of %d cover properties satisfied" % r["covers"])
                else:
                    entry.update(status="discharged", msg="", covers=r["covers"])
            elif r["status"] == "failed":
                if r["unsupported"] or r["unwind"]:
                    entry.update(status="undecided", msg="tool limit: " + "; ".join(r["failed_checks"])[:600])
                else:
                    entry.update(status="failed", msg="; ".join(r["failed_checks"])[:1200])
                    replay_info[h.label] = dict(harness=h.name, dst=dst, kset=[ks for ks, hh in wanted if h in hh][0])
            else:
                entry.update(status="undecided", msg=r["body_tail"][-600:])
            if h.tag == "B":
                bounded[h.label] = entry
            else:
                ledger[h.label] = entry
    return time.time() - t0


def run_witnesses(cfg, scratch, ledger):
    """Witness inputs (vf/witness/*.rs): concrete inputs run on the real crate built from REPO.  Each #[test] carries an
    `/// OBL <label>` line; a failing test marks that obligation failed with the panic text as the replayed counterexample."""
    files = cfg.get("witness", [])
    if not files:
        return 0.0
    t0 = time.time()
    dst = os.path.join(scratch, "witness")
    subprocess.run(["rsync", "-a", "--exclude", "/target", "--exclude", "/.git", "--exclude", "/data", "--exclude", "/js",
                    "--exclude", "/fuzz", REPO.rstrip("/") + "/", dst + "/"], check=True)
    env = dict(os.environ)
    env["CARGO_NET_OFFLINE"] = "true"
    # optional build cache (tooling only, e.g. vf/seed_eval.py: VF_WITNESS_TARGET=<dir>): dependencies compile once; the crate itself is
    # always rebuilt from the scratch copy (its lib.rs is touched, so cargo never takes a binary built from another tree for fresh).
    # The registered commands do not set it: every check builds in its own scratch directory.
    cache = os.environ.get("VF_WITNESS_TARGET")
    if cache:
        os.makedirs(cache, exist_ok=True)
        env["CARGO_TARGET_DIR"] = cache
        os.utime(os.path.join(dst, "src", "lib.rs"), None)
    for fn in files:
        text = open(os.path.join(VF, "witness", fn)).read()
        labels = dict((m.group(2), m.group(1)) for m in re.finditer(r"/// OBL (\S+)\n#\[test\]\nfn (\w+)", text))
        tname = "vf_witness_" + os.path.splitext(fn)[0]
        with open(os.path.join(dst, "tests", tname + ".rs"), "w") as f:
            f.write(text)
        try:
            tier = cfg.get("_tier", "quick")
            env["VF_TIER"] = tier
            cmd = ["cargo", "test", "--offline", "--test", tname] + (["--release"] if tier == "thorough" else []) + ["--", "--test-threads", "1"]
            p = subprocess.run(cmd, cwd=dst,
                               capture_output=True, text=True, env=env, timeout=3600)
            out = p.stdout + p.stderr
        except subprocess.TimeoutExpired:
            out = "timeout"
        seen = dict((m.group(1), m.group(2)) for m in re.finditer(r"^test (\w+) \.\.\. (ok|FAILED)", out, re.M))
        for test, lab in labels.items():
            entry = dict(tool="native replay (cargo test on the real crate)", tag="W", time=0, harness="%s::%s" % (fn, test), witness=fn, test=test)
            if test not in seen:
                entry.update(status="undecided", msg="witness did not run (does not compile against the current tree?):\n" + "\n".join(
                    l for l in out.split("\n") if l.startswith("error"))[:1200])
            elif seen[test] == "ok":
                entry.update(status="discharged", msg="")
            else:
                m = re.search(r"---- %s stdout ----\n(.*?)(?=\n---- |\nfailures:)" % test, out, re.S)
                entry.update(status="failed", msg="witness input fails on the real code: " + (m.group(1).strip() if m else "")[:1200])
            ledger[lab] = entry
    return time.time() - t0


def kani_counterexample(label, info, scratch):
    """re-run the failed harness with concrete playback; return (values, text) or (None, why)."""
    rc, out, secs = kani_run.run_harnesses(info["dst"], [info["harness"]], 1800, playback=True)
    res = kani_run.parse_output(out)
    vals = None
    for m in re.finditer(r"Check for `assertion`.*?concrete_vals: Vec<Vec<u8>> = vec!\[(.*?)\];", out, re.S):
        body = m.group(1)
        vals = [[int(x) for x in re.findall(r"\d+", v)] for v in re.findall(r"vec!\[([^\]]*)\]", body)]
        break
    if vals is None:
        for m in re.finditer(r"concrete_vals: Vec<Vec<u8>> = vec!\[(.*?)\];", out, re.S):
            body = m.group(1)
            vals = [[int(x) for x in re.findall(r"\d+", v)] for v in re.findall(r"vec!\[([^\]]*)\]", body)]
            break
    return vals, out[-3000:]


def replay_on_real_code(harness, target, module_file, vals, scratch=None):
    """run the harness body with recorded inputs as a plain unit test against /repo's current tree."""
    own = scratch is None
    if own:
        scratch = tempfile.mkdtemp(prefix="vf-replay-")
    try:
        dst = os.path.join(scratch, "replay")
        if os.path.exists(dst):
            shutil.rmtree(dst)
        subprocess.run(["rsync", "-a", "--exclude", "/target", "--exclude", "/.git", "--exclude", "/data", "--exclude", "/js",
                        "--exclude", "/fuzz", REPO.rstrip("/") + "/", dst + "/"], check=True)
        with open(os.path.join(dst, "src", "lib.rs"), "a") as f:
            f.write("\n" + open(os.path.join(VF, "kani", "vf_src.rs")).read())
        with open(os.path.join(dst, target), "a") as f:
            f.write("\n" + open(os.path.join(VF, "kani", module_file)).read())
            modname = re.search(r"mod\s+(vf_kani_\w+)", open(os.path.join(VF, "kani", module_file)).read()).group(1)
            f.write("""
#[cfg(vf_replay)]
mod vf_replay_test {
    #[test]
    fn vf_replay() {
        let vals: Vec<Vec<u8>> = vec![%s];
        let mut g = crate::vf_src::Rec::new(vals);
        super::%s::%s_body(&mut g);
    }
}
""" % (", ".join("vec![%s]" % ", ".join(str(b) for b in v) for v in vals), modname, harness))
        env = dict(os.environ)
        env["RUSTFLAGS"] = (env.get("RUSTFLAGS", "") + " --cfg vf_replay -A unexpected_cfgs").strip()
        env["CARGO_NET_OFFLINE"] = "true"
        # share the dependency build with /repo's target dir? no: keep /repo untouched
        p = subprocess.run(["cargo", "test", "--offline", "--lib", "vf_replay", "--", "--nocapture"], cwd=dst,
                           capture_output=True, text=True, env=env, timeout=3600)
        out = p.stdout + p.stderr
        if "VF-REPLAY-VACUOUS" in out:
            return "vacuous", out[-1500:]
        if "test result: FAILED" in out or "panicked at" in out:
            return "reproduced", out[-2500:]
        if "test result: ok. 1 passed" in out:
            return "not-reproduced", out[-800:]
        return "error", out[-2500:]
    finally:
        if own:
            shutil.rmtree(scratch, ignore_errors=True)


def main():
    ap = argparse.ArgumentParser()
    ap.add_argument("prop")
    ap.add_argument("--tier", default=os.environ.get("VERIF_TIER", "quick"), choices=["quick", "thorough"])
    ap.add_argument("--replay")
    ap.add_argument("--keep", action="store_true")
    ap.add_argument("--no-evidence", action="store_true")
    a = ap.parse_args()
    pid = a.prop
    if pid not in props.PROPS:
        print("property %s is not claimed (see MANIFEST.json not_applicable)" % pid)
        return 2
    cfg = props.PROPS[pid]
    seed = int(os.environ.get("VERIF_SEED", "0") or 0)

    if a.replay:
        return do_replay(pid, a.replay)

    t0 = time.time()
    scratch = tempfile.mkdtemp(prefix="vf-%s-" % pid)
    ledger, bounded, notes, replay_info = {}, {}, [], {}
    units = []
    try:
        unit_names = list(cfg.get("verus", []))
        if a.tier == "thorough":
            unit_names += list(cfg.get("verus_thorough", []))
        with cf.ThreadPoolExecutor(max_workers=4) as exe:
            futs = {exe.submit(run_unit, u, REPO, VF, scratch): u for u in unit_names}
            wfut = exe.submit(run_witnesses, dict(cfg, _tier=a.tier), scratch, ledger)
            kani_secs = run_kani_sets(pid, cfg, a.tier, scratch, ledger, notes, bounded, replay_info)
            wfut.result()
            for f in cf.as_completed(futs):
                units.append(f.result())
        units.sort(key=lambda r: unit_names.index(r.unit))
        undecided = []
        prefixes = tuple(cfg.get("labels", [pid + "."]))
        for r in units:
            if r.status != "ok":
                undecided.append("%s: %s" % (r.unit, r.reason))
            for lab, o in r.obligations.items():
                if not lab.startswith(prefixes) and ".unlabelled@" not in lab:
                    continue  # obligation of another property that shares this unit
                w = ledger.get(lab) if ledger.get(lab, {}).get("tag") == "W" else None
                ledger[lab] = dict(status=o["status"], tool="verus/z3", tag="P", unit=r.unit, msg=o["msg"])
                if w is not None:
                    # the same obligation also has witness inputs replayed on the real crate: it fails if either fails, and a
                    # failing witness is the concrete input for the failed contract clause
                    ledger[lab]["witness_status"] = w["status"]
                    if w["status"] == "failed":
                        if o["status"] == "failed":
                            ledger[lab].update(witness=w["witness"], test=w["test"], witness_msg=w["msg"])
                        else:
                            ledger[lab] = w
                    elif w["status"] == "undecided" and o["status"] == "discharged":
                        ledger[lab]["witness_note"] = w["msg"][:300]
        for lab, o in ledger.items():
            if o["status"] == "undecided":
                undecided.append("%s: %s" % (lab, o.get("msg", "")[:300]))
        for lab, o in bounded.items():
            if o["status"] == "undecided":
                undecided.append("%s (bounded): %s" % (lab, o.get("msg", "")[:300]))

        known = load_known()
        kf = {f["obligation"]: f for f in known.get("findings", []) if f["property"] == pid}
        failed = {l: o for l, o in list(ledger.items()) + list(bounded.items()) if o["status"] == "failed"}
        violations = []
        for lab, o in sorted(failed.items()):
            if lab in kf:
                print("KNOWN-FINDING: property=%s %s: %s" % (pid, lab, kf[lab]["what"]))
                continue
            violations.append(lab)

        # known findings that no longer fail are reported (not an error)
        for lab in kf:
            if lab in ledger and ledger[lab]["status"] == "discharged":
                notes.append("known finding %s no longer fails on this tree" % lab)

        rc = 0
        os.makedirs(os.path.join(ROOT, "replay"), exist_ok=True)
        for lab in violations:
            o = failed[lab]
            rp = os.path.join(ROOT, "replay", "%s-%s.json" % (pid, re.sub(r"[^A-Za-z0-9_.]", "_", lab)))
            rec = dict(property=pid, obligation=lab, tool=o.get("tool"), verifier_output=o.get("msg", ""),
                       repo_state=repo_state(), inputs=None, replay_result=None)
            suffix = " no-failing-input-found"
            if o.get("tag") == "W" or o.get("witness_msg"):
                rec.update(inputs="see witness file", witness=o.get("witness"), test=o.get("test"), replay_result="reproduced",
                           replay_output=o.get("witness_msg") or o.get("msg"))
                suffix = ""
            info = replay_info.get(lab) or twin_for(cfg, lab, replay_info)
            if info:
                vals, txt = kani_counterexample(lab, info, scratch)
                if vals is not None:
                    ks = info["kset"]
                    st, out = replay_on_real_code(info["harness"], ks.target, ks.module_file, vals, scratch)
                    rec.update(inputs=vals, harness=info["harness"], target=ks.target, module_file=ks.module_file,
                               replay_result=st, replay_output=out)
                    if st == "reproduced":
                        suffix = ""
            with open(rp, "w") as f:
                json.dump(rec, f, indent=1)
            print("VIOLATION property=%s replay=%s obligation=%s%s" % (pid, rp, lab, suffix))
            rc = 1
        if rc == 0 and undecided:
            rc = 2
            for u in undecided:
                print("UNDECIDED: %s" % u)

        wall = time.time() - t0
        if not a.no_evidence:
            write_evidence(pid, cfg, a.tier, seed, ledger, bounded, units, kf, violations, undecided, notes, wall, rc)
        # summary
        nd = sum(1 for o in ledger.values() if o["status"] == "discharged")
        proof_labs = [l for l in ledger if l not in kf and ledger[l].get("tag") != "W"]
        wit_labs = [l for l in ledger if ledger[l].get("tag") == "W" and l not in kf]
        print("%s tier=%s obligations=%d discharged=%d failed=%d known=%d bounded=%d witness=%d/%d undecided=%d wall=%.1fs" % (
            pid, a.tier, len(proof_labs), len([l for l in proof_labs if ledger[l]["status"] == "discharged"]),
            len(violations), len([l for l in failed if l in kf]), len(bounded),
            len([l for l in wit_labs if ledger[l]["status"] == "discharged"]), len(wit_labs), len(undecided), wall))
        if os.environ.get("VF_VERBOSE"):
            for lab, o in sorted(ledger.items()):
                print("  %-44s %-10s %s %s" % (lab, o["status"], o.get("tag"), o.get("tool")))
            for lab, o in sorted(bounded.items()):
                print("  %-44s %-10s B %s" % (lab, o["status"], o.get("bound")))
            for lab in violations:
                print("---- %s\n%s" % (lab, failed[lab].get("msg", "")))
        return rc
    finally:
        if not a.keep:
            shutil.rmtree(scratch, ignore_errors=True)
        else:
            print("scratch kept:", scratch)


def twin_for(cfg, lab, replay_info):
    return None


def write_evidence(pid, cfg, tier, seed, ledger, bounded, units, kf, violations, undecided, notes, wall, rc):
    # proof-level counts: contract obligations (Verus, tag P) and complete Kani harnesses (tag C) only; witness inputs (tag W: concrete
    # inputs replayed on the real crate) and bounded harnesses are listed separately and never counted as proved
    counted = {l: o for l, o in ledger.items() if l not in kf and o.get("tag") != "W"}
    discharged = [l for l, o in counted.items() if o["status"] == "discharged"]
    witness_inputs = [dict(obligation=l, status=o["status"], test=o.get("harness"), also_contract_clause=False) for l, o in sorted(ledger.items()) if o.get("tag") == "W"]
    witness_inputs += [dict(obligation=l, status=o.get("witness_status"), test=None, also_contract_clause=True) for l, o in sorted(ledger.items()) if o.get("tag") != "W" and o.get("witness_status")]
    trusted = list(cfg.get("trusted", []))
    lifts, items, rewrites = [], [], {}
    fn_times = {}
    smt_ms = 0
    for r in units:
        for t in r.trusted:
            trusted.append("%s: %s" % (r.unit, t))
        lifts += ["%s: %s" % (r.unit, x) for x in r.lifts]
        items += [dict(unit=r.unit, **it) for it in r.items]
        for k, v in r.stats.items():
            rewrites[k] = rewrites.get(k, 0) + v
        smt_ms += r.smt_ms
        for fn, d in r.functions.items():
            if not fn.startswith("vstd::"):
                fn_times["%s::%s" % (r.unit, fn)] = d
    samples = []
    for l, o in sorted(ledger.items()):
        samples.append(dict(obligation=l, status=o["status"], tool=o.get("tool"), tag=o.get("tag"),
                            where=o.get("unit") or o.get("harness"), solver_s=o.get("time")))
    ev = dict(
        property_id=pid, tier=tier, seed=seed, level=cfg.get("level", "proof"),
        coverage=dict(
            obligations=len(counted), discharged=len(discharged),
            checker_cmd="python3 vf/check.py %s --tier %s  (verus <unit>.rs --output-json --time --multiple-errors 40; cargo kani -Z function-contracts -Z stubbing --harness ...)" % (pid, tier),
            trusted_base=sorted(set(trusted)),
            samples=samples,
            explanation=cfg.get("explanation", ""),
            functions_under_contract=[i for i in items if i.get("under_contract")],
            items_extracted=len(items),
            extracted_items=items,
            rewrites_applied=rewrites,
            lifted_expressions_trusted=lifts,
            bounded=[dict(obligation=l, status=o["status"], bound=o.get("bound"), harness=o.get("harness"), solver_s=o.get("time")) for l, o in sorted(bounded.items())],
            witness_inputs=witness_inputs,
            witness_note="concrete inputs / histories taken from the property statement, run with cargo test on a scratch copy of the real crate on every check; not proof, not counted in obligations/discharged",
            known_finding_obligations=sorted(kf.keys()),
            backends=sorted(set(o.get("tool") or "" for o in ledger.values())),
            solver_time_s=round(smt_ms / 1000.0 + sum((o.get("time") or 0) for o in ledger.values() if o.get("tool", "").startswith("kani")), 3),
            per_function=fn_times,
            undecided=undecided,
            notes=notes,
            repo_state=repo_state(),
            exhaustive=False,
        ),
        assumptions=cfg.get("assumptions", []),
        wall_s=round(wall, 2),
        violations=len(violations),
    )
    os.makedirs(os.path.join(ROOT, "evidence"), exist_ok=True)
    with open(os.path.join(ROOT, "evidence", pid + ".json"), "w") as f:
        json.dump(ev, f, indent=1)


def do_replay(pid, path):
    rec = json.load(open(path))
    if rec.get("witness"):
        scratch = tempfile.mkdtemp(prefix="vf-replay-")
        try:
            led = {}
            run_witnesses(dict(witness=[rec["witness"]]), scratch, led)
            o = led.get(rec["obligation"], dict(status="undecided", msg="witness not found"))
            print("replay of %s on %s: %s\n%s" % (rec["obligation"], repo_state(), o["status"], o.get("msg", "")))
            return 1 if o["status"] == "failed" else 0
        finally:
            shutil.rmtree(scratch, ignore_errors=True)
    if not rec.get("inputs"):
        print("replay file carries no concrete input (no-failing-input-found); failed obligation: %s" % rec["obligation"])
        print(rec.get("verifier_output", ""))
        # re-run the check itself: the obligation either still fails or not
        return subprocess.call([sys.executable, os.path.abspath(__file__), pid, "--no-evidence"])
    st, out = replay_on_real_code(rec["harness"], rec["target"], rec["module_file"], rec["inputs"])
    print("replay of %s on %s: %s" % (rec["obligation"], repo_state(), st))
    print(out)
    return 1 if st == "reproduced" else 0


if __name__ == "__main__":
    sys.exit(main())
